//! zsim-core: deterministic-simulation plumbing with no dependency on the code under test.
pub mod driver;
pub mod e1;
pub mod e3;
pub mod hooks;
pub mod known;
pub mod rng;
pub mod run;
pub mod shrink;
pub mod source;

pub use driver::{CheckSpec, Scenario, Tier};
pub use run::{Run, Violation};
pub use source::{Chan, Ops, Source};
