//! E3 — fault-injecting seams for byte streams: `FaultyRead`, `FaultyWrite`, both also `Seek`.
//!
//! Every call asks the fault channel what to do.  Benign behaviours (short transfers) must
//! be invisible to a correct consumer; `Interrupted` and hard errors may make the consumer
//! fail but never make it return wrong data.

use crate::source::Chan;
use std::io::{self, Read, Seek, SeekFrom, Write};
use std::sync::{Arc, Mutex};

#[derive(Clone, Debug, Default)]
pub struct FaultCfg {
    /// per-call probability (num/100) of a short transfer
    pub short_pct: u64,
    /// per-call probability of ErrorKind::Interrupted
    pub eintr_pct: u64,
    /// per-call probability of a hard error (ErrorKind::Other)
    pub error_pct: u64,
    /// stream is cut (early EOF for reads, WriteZero / storage-full for writes) at this byte offset
    pub cut_at: Option<u64>,
    /// flush fails with this probability
    pub flush_error_pct: u64,
    /// maximum bytes served per call (chunking), 0 = unlimited
    pub max_chunk: usize,
}

impl FaultCfg {
    pub fn benign(&self) -> bool {
        self.eintr_pct == 0 && self.error_pct == 0 && self.cut_at.is_none() && self.flush_error_pct == 0
    }
}

#[derive(Clone, Debug, Default)]
pub struct FaultLog {
    pub calls: u64,
    pub short: u64,
    pub eintr: u64,
    pub errors: u64,
    pub cut: u64,
    pub flush_errors: u64,
    /// (call index, byte offset, kind)
    pub events: Vec<(u64, u64, &'static str)>,
}

impl FaultLog {
    pub fn hard_faults(&self) -> u64 {
        self.eintr + self.errors + self.cut + self.flush_errors
    }
}

pub type SharedLog = Arc<Mutex<FaultLog>>;

pub fn new_log() -> SharedLog {
    Arc::new(Mutex::new(FaultLog::default()))
}

fn note(log: &SharedLog, off: u64, kind: &'static str) {
    let mut l = log.lock().unwrap();
    match kind {
        "short" => l.short += 1,
        "eintr" => l.eintr += 1,
        "error" => l.errors += 1,
        "cut" => l.cut += 1,
        "flush_error" => l.flush_errors += 1,
        _ => {}
    }
    let c = l.calls;
    if l.events.len() < 64 {
        l.events.push((c, off, kind));
    }
}

pub struct FaultyRead<R> {
    pub inner: R,
    pub cfg: FaultCfg,
    pub chan: Chan,
    pub log: SharedLog,
    pub pos: u64,
}

impl<R> FaultyRead<R> {
    pub fn new(inner: R, cfg: FaultCfg, chan: Chan, log: SharedLog) -> Self {
        FaultyRead { inner, cfg, chan, log, pos: 0 }
    }
    pub fn into_inner(self) -> R {
        self.inner
    }
}

impl<R: Read> Read for FaultyRead<R> {
    fn read(&mut self, buf: &mut [u8]) -> io::Result<usize> {
        self.log.lock().unwrap().calls += 1;
        if buf.is_empty() {
            return self.inner.read(buf);
        }
        if self.cfg.eintr_pct > 0 && self.chan.chance(self.cfg.eintr_pct, 100) {
            note(&self.log, self.pos, "eintr");
            return Err(io::Error::new(io::ErrorKind::Interrupted, "injected EINTR"));
        }
        if self.cfg.error_pct > 0 && self.chan.chance(self.cfg.error_pct, 100) {
            note(&self.log, self.pos, "error");
            return Err(io::Error::new(io::ErrorKind::Other, "injected read error"));
        }
        let mut n = buf.len();
        if let Some(cut) = self.cfg.cut_at {
            if self.pos >= cut {
                note(&self.log, self.pos, "cut");
                return Ok(0);
            }
            n = n.min((cut - self.pos) as usize);
        }
        if self.cfg.max_chunk > 0 {
            n = n.min(self.cfg.max_chunk);
        }
        if n > 1 && self.cfg.short_pct > 0 && self.chan.chance(self.cfg.short_pct, 100) {
            n = 1 + self.chan.below((n - 1) as u64) as usize;
            note(&self.log, self.pos, "short");
        }
        let got = self.inner.read(&mut buf[..n])?;
        self.pos += got as u64;
        Ok(got)
    }
}

impl<R: Seek> Seek for FaultyRead<R> {
    fn seek(&mut self, p: SeekFrom) -> io::Result<u64> {
        self.log.lock().unwrap().calls += 1;
        if self.cfg.error_pct > 0 && self.chan.chance(self.cfg.error_pct, 100) {
            note(&self.log, self.pos, "error");
            return Err(io::Error::new(io::ErrorKind::Other, "injected seek error"));
        }
        let r = self.inner.seek(p)?;
        self.pos = r;
        Ok(r)
    }
}

pub struct FaultyWrite<W> {
    pub inner: W,
    pub cfg: FaultCfg,
    pub chan: Chan,
    pub log: SharedLog,
    pub pos: u64,
}

impl<W> FaultyWrite<W> {
    pub fn new(inner: W, cfg: FaultCfg, chan: Chan, log: SharedLog) -> Self {
        FaultyWrite { inner, cfg, chan, log, pos: 0 }
    }
    pub fn into_inner(self) -> W {
        self.inner
    }
}

impl<W: Write> Write for FaultyWrite<W> {
    fn write(&mut self, buf: &[u8]) -> io::Result<usize> {
        self.log.lock().unwrap().calls += 1;
        if buf.is_empty() {
            return self.inner.write(buf);
        }
        if self.cfg.eintr_pct > 0 && self.chan.chance(self.cfg.eintr_pct, 100) {
            note(&self.log, self.pos, "eintr");
            return Err(io::Error::new(io::ErrorKind::Interrupted, "injected EINTR"));
        }
        if self.cfg.error_pct > 0 && self.chan.chance(self.cfg.error_pct, 100) {
            note(&self.log, self.pos, "error");
            return Err(io::Error::new(io::ErrorKind::Other, "injected write error"));
        }
        let mut n = buf.len();
        if let Some(cut) = self.cfg.cut_at {
            if self.pos >= cut {
                note(&self.log, self.pos, "cut");
                return Err(io::Error::new(io::ErrorKind::StorageFull, "injected: storage full"));
            }
            n = n.min((cut - self.pos) as usize);
        }
        if self.cfg.max_chunk > 0 {
            n = n.min(self.cfg.max_chunk);
        }
        if n > 1 && self.cfg.short_pct > 0 && self.chan.chance(self.cfg.short_pct, 100) {
            n = 1 + self.chan.below((n - 1) as u64) as usize;
            note(&self.log, self.pos, "short");
        }
        let put = self.inner.write(&buf[..n])?;
        self.pos += put as u64;
        Ok(put)
    }
    fn flush(&mut self) -> io::Result<()> {
        self.log.lock().unwrap().calls += 1;
        if self.cfg.flush_error_pct > 0 && self.chan.chance(self.cfg.flush_error_pct, 100) {
            note(&self.log, self.pos, "flush_error");
            return Err(io::Error::new(io::ErrorKind::Other, "injected flush error"));
        }
        self.inner.flush()
    }
}

impl<W: Seek> Seek for FaultyWrite<W> {
    fn seek(&mut self, p: SeekFrom) -> io::Result<u64> {
        let r = self.inner.seek(p)?;
        self.pos = r;
        Ok(r)
    }
}

/// Draw a fault configuration for one run.  `hard` selects the fault-injecting family;
/// otherwise only benign behaviours (short transfers, odd chunk sizes) are enabled.
pub fn draw_cfg(cfg: &Chan, hard: bool, stream_len_hint: u64) -> FaultCfg {
    let mut f = FaultCfg::default();
    f.short_pct = *cfg.pick(&[0u64, 20, 50, 90]);
    f.max_chunk = *cfg.pick(&[0usize, 0, 1, 2, 3, 7, 8, 13, 64]);
    if hard {
        // swarm: each hard fault kind is enabled in a random subset of runs
        if cfg.chance(1, 2) {
            f.eintr_pct = *cfg.pick(&[2u64, 10, 30]);
        }
        if cfg.chance(1, 3) {
            f.error_pct = *cfg.pick(&[1u64, 5, 15]);
        }
        if cfg.chance(1, 3) {
            f.cut_at = Some(cfg.below(stream_len_hint.max(1) + 1));
        }
        if cfg.chance(1, 4) {
            f.flush_error_pct = *cfg.pick(&[10u64, 50, 100]);
        }
        if f.benign() {
            f.eintr_pct = 10;
        }
    }
    f
}
