//! PRNG and hashing. No external crates: SplitMix64 seeds xoshiro256**.

#[derive(Clone, Debug)]
pub struct Rng {
    s: [u64; 4],
}

pub fn splitmix(x: &mut u64) -> u64 {
    *x = x.wrapping_add(0x9E37_79B9_7F4A_7C15);
    let mut z = *x;
    z = (z ^ (z >> 30)).wrapping_mul(0xBF58_476D_1CE4_E5B9);
    z = (z ^ (z >> 27)).wrapping_mul(0x94D0_49BB_1331_11EB);
    z ^ (z >> 31)
}

/// Mix two integers into one (order-sensitive).
pub fn mix(a: u64, b: u64) -> u64 {
    let mut x = a ^ 0x6A09_E667_F3BC_C909;
    let h = splitmix(&mut x);
    let mut y = h ^ b.wrapping_mul(0xD6E8_FEB8_6659_FD93);
    splitmix(&mut y)
}

/// FNV-1a over bytes, finished with a splitmix round.
pub fn hash_bytes(b: &[u8]) -> u64 {
    let mut h: u64 = 0xcbf2_9ce4_8422_2325;
    for &c in b {
        h ^= c as u64;
        h = h.wrapping_mul(0x0000_0100_0000_01B3);
    }
    let mut x = h;
    splitmix(&mut x)
}

pub fn hash_str(s: &str) -> u64 {
    hash_bytes(s.as_bytes())
}

impl Rng {
    pub fn new(seed: u64) -> Rng {
        let mut x = seed;
        let s = [splitmix(&mut x), splitmix(&mut x), splitmix(&mut x), splitmix(&mut x)];
        Rng { s }
    }
    pub fn next(&mut self) -> u64 {
        let r = self.s[1].wrapping_mul(5).rotate_left(7).wrapping_mul(9);
        let t = self.s[1] << 17;
        self.s[2] ^= self.s[0];
        self.s[3] ^= self.s[1];
        self.s[1] ^= self.s[2];
        self.s[0] ^= self.s[3];
        self.s[2] ^= t;
        self.s[3] = self.s[3].rotate_left(45);
        r
    }
    /// Uniform in 0..n (n >= 1).
    pub fn below(&mut self, n: u64) -> u64 {
        if n <= 1 {
            return 0;
        }
        // rejection-free multiply-shift (bias is irrelevant at these sizes)
        ((self.next() as u128 * n as u128) >> 64) as u64
    }
}
