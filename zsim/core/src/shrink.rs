//! Tape shrinking: delete aligned chunks, zero values, lower values, channel by channel,
//! while the same (class, site) violation persists.

use serde_json::{json, Value};
use std::time::{Duration, Instant};

pub struct Budget {
    pub max_attempts: u64,
    pub deadline: Instant,
    pub attempts: u64,
}

impl Budget {
    pub fn new(max_attempts: u64, wall: Duration) -> Budget {
        Budget { max_attempts, deadline: Instant::now() + wall, attempts: 0 }
    }
    fn spent(&self) -> bool {
        self.attempts >= self.max_attempts || Instant::now() >= self.deadline
    }
}

fn get(t: &Value, ch: &str) -> (usize, Vec<u64>) {
    let c = &t[ch];
    let stride = c.get("stride").and_then(|s| s.as_u64()).unwrap_or(1).max(1) as usize;
    let v = c.get("v").and_then(|a| a.as_array()).map(|a| a.iter().map(|x| x.as_u64().unwrap_or(0)).collect()).unwrap_or_default();
    (stride, v)
}

fn set(t: &Value, ch: &str, stride: usize, v: &[u64]) -> Value {
    let mut t = t.clone();
    t[ch] = json!({"stride": stride, "v": v});
    t
}

pub fn tape_len(t: &Value) -> usize {
    t.as_object().map(|o| o.keys().map(|k| get(t, k).1.len()).sum()).unwrap_or(0)
}

pub fn tape_weight(t: &Value) -> u64 {
    t.as_object().map(|o| o.keys().map(|k| get(t, k).1.iter().filter(|&&x| x != 0).count() as u64).sum()).unwrap_or(0)
}

fn measure(t: &Value) -> (usize, u64, u64) {
    let sum = t.as_object().map(|o| o.keys().map(|k| get(t, k).1.iter().fold(0u64, |a, &x| a.saturating_add(x))).fold(0u64, |a, x| a.saturating_add(x))).unwrap_or(0);
    (tape_len(t), tape_weight(t), sum)
}

/// Evaluate a candidate; adopt it (or the canonical tapes of its run) if it reproduces and is smaller.
fn attempt(best: &mut Value, cand: Value, budget: &mut Budget, eval: &mut dyn FnMut(&Value) -> Option<Value>) -> bool {
    budget.attempts += 1;
    match eval(&cand) {
        Some(canon) => {
            if measure(&canon) < measure(best) {
                *best = canon;
                true
            } else if measure(&cand) < measure(best) {
                *best = cand;
                true
            } else {
                false
            }
        }
        None => false,
    }
}

/// `eval` runs the candidate and returns `Some(canonical tapes)` when the *same* violation
/// shows (the tapes actually consumed by that run), `None` otherwise.
pub fn shrink(start: &Value, budget: &mut Budget, eval: &mut dyn FnMut(&Value) -> Option<Value>) -> Value {
    let mut best = start.clone();
    let mut improved = true;
    while improved && !budget.spent() {
        improved = false;
        let chans: Vec<String> = best.as_object().map(|o| o.keys().cloned().collect()).unwrap_or_default();
        // pass 1: delete aligned chunks (workload channels first: names starting with "ops")
        let mut order = chans.clone();
        order.sort_by_key(|k| (!k.starts_with("ops"), k.clone()));
        for ch in &order {
            let (stride, mut v) = get(&best, ch);
            let units = v.len() / stride;
            let mut size = units.max(1);
            while size >= 1 && !budget.spent() {
                let mut start_u = 0usize;
                while start_u < v.len() / stride && !budget.spent() {
                    let lo = start_u * stride;
                    let hi = ((start_u + size) * stride).min(v.len());
                    if lo >= hi {
                        break;
                    }
                    let mut cand = v.clone();
                    cand.drain(lo..hi);
                    let c = set(&best, ch, stride, &cand);
                    if attempt(&mut best, c, budget, eval) {
                        let (_, nv) = get(&best, ch);
                        v = nv;
                        improved = true;
                        // stay at the same position: the next chunk moved here
                    } else {
                        start_u += size;
                    }
                }
                if size == 1 {
                    break;
                }
                size /= 2;
            }
            // also try dropping a ragged tail
            let _ = units;
        }
        // pass 2: zero runs of values, then single values
        for ch in &chans {
            let (stride, mut v) = get(&best, ch);
            let mut size = v.len().max(1);
            while size >= 1 && !budget.spent() {
                let mut i = 0usize;
                while i < v.len() && !budget.spent() {
                    let hi = (i + size).min(v.len());
                    if v[i..hi].iter().all(|&x| x == 0) {
                        i += size;
                        continue;
                    }
                    let mut cand = v.clone();
                    for x in &mut cand[i..hi] {
                        *x = 0;
                    }
                    let c = set(&best, ch, stride, &cand);
                    if attempt(&mut best, c, budget, eval) {
                        v = get(&best, ch).1;
                        improved = true;
                    }
                    i += size;
                }
                if size == 1 {
                    break;
                }
                size /= 2;
            }
        }
        // pass 3: lower single values (halve, decrement)
        for ch in &chans {
            let (stride, mut v) = get(&best, ch);
            let mut i = 0usize;
            while i < v.len() && !budget.spent() {
                if v[i] > 1 {
                    for cand_v in [v[i] / 2, v[i] - 1] {
                        if cand_v >= v[i] {
                            continue;
                        }
                        let mut cand = v.clone();
                        cand[i] = cand_v;
                        let c = set(&best, ch, stride, &cand);
                        if attempt(&mut best, c, budget, eval) {
                            v = get(&best, ch).1;
                            improved = true;
                            break;
                        }
                        if budget.spent() {
                            break;
                        }
                    }
                }
                i += 1;
            }
        }
    }
    best
}
