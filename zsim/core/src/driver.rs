//! Orchestration: parent (plans, supervises workers, confirms, shrinks, reports), worker
//! (runs its share of the seeds), eval/replay/shrink/rehash/selftest sub-commands.

use crate::e1;
use crate::known;
use crate::rng::{hash_str, mix};
use crate::run::{add_counts, Counts, Run, Violation};
use crate::shrink;
use crate::source::Source;
use serde_json::{json, Map, Value};
use std::collections::{BTreeMap, BTreeSet, HashSet};
use std::io::Write;
use std::os::unix::process::ExitStatusExt;
use std::panic::{catch_unwind, AssertUnwindSafe};
use std::process::{Command, Stdio};
use std::time::{Duration, Instant};

#[derive(Clone, Copy, PartialEq, Eq, Debug)]
pub enum Tier {
    Quick,
    Thorough,
}

impl Tier {
    pub fn name(self) -> &'static str {
        match self {
            Tier::Quick => "quick",
            Tier::Thorough => "thorough",
        }
    }
}

pub trait Scenario: Send + Sync {
    fn name(&self) -> String;
    /// number of simulated runs in this tier
    fn budget(&self, tier: Tier) -> u64;
    /// one simulated run; everything random comes from `cx.src`
    fn run(&self, cx: &mut Run);
}

pub struct CheckSpec {
    pub id: &'static str,
    pub level: &'static str,
    pub rule: &'static str,
    pub assumptions: Vec<String>,
    /// component -> "real" | "stub" | free text
    pub components: Vec<(&'static str, &'static str)>,
    pub scenarios: Vec<Box<dyn Scenario>>,
    /// install hooks etc.; called once in every process that runs scenarios
    pub init: fn(),
    /// seconds without progress before a worker is declared hung
    pub hang_secs: u64,
    /// address-space limit for workers in MiB (0 = none)
    pub rlimit_as_mb: u64,
    /// wall-clock caps (safety nets; budgets are what normally ends a run)
    pub quick_wall_s: u64,
    pub thorough_wall_s: u64,
}

impl CheckSpec {
    pub fn new(id: &'static str, level: &'static str, rule: &'static str) -> CheckSpec {
        CheckSpec { id, level, rule, assumptions: vec![], components: vec![], scenarios: vec![], init: || {}, hang_secs: 30, rlimit_as_mb: 0, quick_wall_s: 150, thorough_wall_s: 1500 }
    }
}

fn verif_dir() -> String {
    std::env::var("ZSIM_VERIF_DIR").unwrap_or_else(|_| "/verif".to_string())
}

fn arg_val(args: &[String], key: &str) -> Option<String> {
    args.iter().position(|a| a == key).and_then(|i| args.get(i + 1).cloned())
}

fn harness_error(msg: &str) -> ! {
    eprintln!("zsim: harness error: {}", msg);
    std::process::exit(2);
}

pub fn run_seed(spec_id: &str, base: u64, scenario: &str, i: u64) -> u64 {
    mix(mix(base, hash_str(&format!("{}/{}", spec_id, scenario))), i)
}

fn install_panic_hook() {
    std::panic::set_hook(Box::new(|info| {
        if info.payload().is::<e1::SimAbort>() {
            return;
        }
        let loc = info.location().map(|l| {
            let f = l.file();
            // stable across checkouts: keep the path from `src/` on
            let f = match f.find("/src/") {
                Some(k) => &f[k + 1..],
                None => f,
            };
            format!("{}:{}", f, l.line())
        });
        let msg = if let Some(s) = info.payload().downcast_ref::<&str>() {
            s.to_string()
        } else if let Some(s) = info.payload().downcast_ref::<String>() {
            s.clone()
        } else {
            "<non-string panic>".to_string()
        };
        let msg: String = msg.chars().take(300).collect();
        e1::LAST_PANIC.with(|l| *l.borrow_mut() = Some((loc.unwrap_or_else(|| "<unknown>".into()), msg)));
    }));
}

fn set_rlimit_as(mb: u64) {
    if mb == 0 {
        return;
    }
    let lim = libc::rlimit { rlim_cur: (mb << 20) as libc::rlim_t, rlim_max: (mb << 20) as libc::rlim_t };
    unsafe {
        libc::setrlimit(libc::RLIMIT_AS, &lim);
    }
}

/// Execute one run in this process, catching panics.
pub fn exec(sc: &dyn Scenario, src: Source) -> Run {
    e1::mem_reset();
    let mut cx = Run::new(src);
    let r = catch_unwind(AssertUnwindSafe(|| sc.run(&mut cx)));
    if let Err(p) = r {
        match e1::panic_violation(&p) {
            Some(v) => cx.violate(&v.class, &v.site, v.detail),
            None => {}
        }
    }
    if let Some(v) = e1::take_mem_violation() {
        cx.violate(&v.class, &v.site, v.detail);
    }
    cx
}

fn distinct_key(cx: &Run) -> u64 {
    let mut h = cx.trace.hash;
    for c in &cx.cells {
        h = mix(h, hash_str(c));
    }
    h
}

// ---------------------------------------------------------------------------------------
// worker

#[derive(Default)]
struct ScStats {
    evaluations: u64,
    nontrivial: u64,
    abandoned: u64,
    steps: u64,
    sim_ms: u64,
    faults: Counts,
    probes: Counts,
    samples: Vec<Value>,
    first_hashes: BTreeMap<u64, String>,
    /// (class, site, bucket): the bucket separates instances that match a known-findings entry (by
    /// its index, detail glob included) from those that match none, so that a known finding never
    /// stands in for a different defect that shares its class and site
    violations: BTreeMap<(String, String, String), Value>,
    cells: BTreeSet<String>,
}

fn worker_flush(dir: &str, k: u64, gen: u64, stats: &BTreeMap<String, ScStats>, hashes: &mut Vec<u8>, done: bool) {
    let mut o = Map::new();
    for (name, s) in stats {
        let viol: Vec<Value> = s.violations.values().cloned().collect();
        o.insert(
            name.clone(),
            json!({
                "evaluations": s.evaluations, "nontrivial": s.nontrivial, "abandoned": s.abandoned, "steps": s.steps, "sim_ms": s.sim_ms,
                "faults": s.faults, "probes": s.probes, "samples": s.samples, "first_hashes": s.first_hashes, "violations": viol,
                "cells": s.cells,
            }),
        );
    }
    let v = json!({"done": done, "scenarios": o});
    let tmp = format!("{}/w{}.g{}.json.tmp", dir, k, gen);
    let fin = format!("{}/w{}.g{}.json", dir, k, gen);
    if std::fs::write(&tmp, serde_json::to_vec(&v).unwrap()).is_ok() {
        let _ = std::fs::rename(&tmp, &fin);
    }
    if !hashes.is_empty() {
        if let Ok(mut f) = std::fs::OpenOptions::new().create(true).append(true).open(format!("{}/w{}.g{}.hashes", dir, k, gen)) {
            let _ = f.write_all(hashes);
        }
        hashes.clear();
    }
}

fn worker(spec: &CheckSpec, args: &[String]) -> ! {
    let tier = if arg_val(args, "--tier").as_deref() == Some("thorough") { Tier::Thorough } else { Tier::Quick };
    let base: u64 = arg_val(args, "--seed").and_then(|s| s.parse().ok()).unwrap_or(1);
    let k: u64 = arg_val(args, "--k").and_then(|s| s.parse().ok()).unwrap_or(0);
    let of: u64 = arg_val(args, "--of").and_then(|s| s.parse().ok()).unwrap_or(1);
    let gen: u64 = arg_val(args, "--gen").and_then(|s| s.parse().ok()).unwrap_or(0);
    let dir = arg_val(args, "--dir").unwrap_or_else(|| ".".into());
    let scale: f64 = arg_val(args, "--scale").and_then(|s| s.parse().ok()).unwrap_or(1.0);
    let wall: u64 = arg_val(args, "--wall").and_then(|s| s.parse().ok()).unwrap_or(u64::MAX / 4);
    let only: Option<String> = arg_val(args, "--only");
    let resume: Option<(usize, u64)> = arg_val(args, "--resume").and_then(|s| {
        let mut p = s.split(':');
        Some((p.next()?.parse().ok()?, p.next()?.parse().ok()?))
    });
    set_rlimit_as(spec.rlimit_as_mb);
    (spec.init)();
    install_panic_hook();
    let t0 = Instant::now();
    let cur_path = format!("{}/w{}.cur", dir, k);
    let mut stats: BTreeMap<String, ScStats> = BTreeMap::new();
    let mut hashes: Vec<u8> = Vec::new();
    let mut last_flush = Instant::now();
    let mut truncated = false;
    let known_list = known::load(&format!("{}/known_findings.json", verif_dir()));
    'outer: for (j, sc) in spec.scenarios.iter().enumerate() {
        let name = sc.name();
        if let Some(o) = &only {
            if !name.contains(o.as_str()) {
                continue;
            }
        }
        let budget = ((sc.budget(tier) as f64) * scale).ceil() as u64;
        let st = stats.entry(name.clone()).or_default();
        let _ = st;
        let mut i = k;
        while i < budget {
            if let Some((rj, ri)) = resume {
                if (j, i) <= (rj, ri) {
                    i += of;
                    continue;
                }
            }
            if t0.elapsed().as_secs() >= wall {
                truncated = true;
                break 'outer;
            }
            let _ = std::fs::write(&cur_path, format!("{} {}\n", j, i));
            let seed = run_seed(spec.id, base, &name, i);
            let cx = exec(sc.as_ref(), Source::from_seed(seed));
            let st = stats.get_mut(&name).unwrap();
            st.evaluations += 1;
            st.steps += cx.steps;
            st.sim_ms += cx.sim_ms;
            if cx.abandoned {
                st.abandoned += 1;
            }
            add_counts(&mut st.faults, &cx.faults);
            add_counts(&mut st.probes, &cx.probes);
            if cx.nontrivial {
                st.nontrivial += 1;
                hashes.extend_from_slice(&distinct_key(&cx).to_le_bytes());
            }
            for c in &cx.cells {
                if st.cells.len() < 4096 {
                    st.cells.insert(c.clone());
                }
            }
            if i < 16 {
                st.first_hashes.insert(i, format!("{:016x}", cx.trace.hash));
            }
            if st.samples.len() < 1 && cx.nontrivial && cx.violation.is_none() {
                st.samples.push(json!({"scenario": name, "index": i, "seed": seed, "events": cx.trace.events.iter().take(60).collect::<Vec<_>>(), "n_events": cx.trace.n, "tapes": cx.src.tapes()}));
            }
            if let Some(v) = &cx.violation {
                let kb = match known::match_index(&known_list, spec.id, &name, &v.class, &v.site, &v.detail) {
                    Some(ix) => format!("k{}", ix),
                    None => "-".to_string(),
                };
                let key = (v.class.clone(), v.site.clone(), kb.clone());
                match st.violations.get_mut(&key) {
                    Some(e) => {
                        let c = e["count"].as_u64().unwrap_or(1) + 1;
                        e["count"] = json!(c);
                    }
                    None => {
                        st.violations.insert(
                            key,
                            json!({"scenario": name, "scenario_index": j, "index": i, "seed": seed, "class": v.class, "site": v.site, "detail": v.detail, "count": 1, "kb": kb,
                                   "tapes": cx.src.tapes(), "hash": format!("{:016x}", cx.trace.hash)}),
                        );
                    }
                }
            }
            if last_flush.elapsed() > Duration::from_millis(400) {
                worker_flush(&dir, k, gen, &stats, &mut hashes, false);
                last_flush = Instant::now();
            }
            i += of;
        }
    }
    worker_flush(&dir, k, gen, &stats, &mut hashes, true);
    if truncated {
        let _ = std::fs::write(format!("{}/w{}.truncated", dir, k), "1");
    }
    std::process::exit(0);
}

// ---------------------------------------------------------------------------------------
// eval / replay / shrink children

fn find_scenario<'a>(spec: &'a CheckSpec, name: &str) -> &'a dyn Scenario {
    match spec.scenarios.iter().find(|s| s.name() == name) {
        Some(s) => s.as_ref(),
        None => harness_error(&format!("no scenario named {}", name)),
    }
}

fn read_json(path: &str) -> Value {
    // lossy: a run over a broken library can put bytes from uninitialised memory into event text
    let b = std::fs::read(path).unwrap_or_else(|e| harness_error(&format!("cannot read {}: {}", path, e)));
    let t = String::from_utf8_lossy(&b).into_owned();
    serde_json::from_str(&t).unwrap_or_else(|e| harness_error(&format!("cannot parse {}: {}", path, e)))
}

/// `eval <file>`: run the tapes (or seed) in the file, print `OUTCOME <json>`.
fn eval_cmd(spec: &CheckSpec, args: &[String]) -> ! {
    let rec = read_json(&args[0]);
    set_rlimit_as(spec.rlimit_as_mb);
    (spec.init)();
    install_panic_hook();
    let sc = find_scenario(spec, rec["scenario"].as_str().unwrap_or(""));
    let seed = rec["seed"].as_u64().unwrap_or(0);
    let src = if rec.get("tapes").map(|t| t.is_object()).unwrap_or(false) { Source::from_tapes(seed, &rec["tapes"]) } else { Source::from_seed(seed) };
    let cx = exec(sc, src);
    let mut o = cx.outcome_json();
    o["tapes"] = cx.src.tapes();
    match args.get(1) {
        Some(out) => std::fs::write(out, serde_json::to_vec(&o).unwrap()).unwrap_or_else(|e| harness_error(&format!("write {}: {}", out, e))),
        None => println!("OUTCOME {}", o),
    }
    std::process::exit(0);
}

/// Result of evaluating a record in a child process.
struct ChildOutcome {
    violation: Option<Violation>,
    hash: String,
    tapes: Value,
    events: Value,
}

fn sig_name(s: i32) -> String {
    match s {
        libc::SIGSEGV => "SIGSEGV".into(),
        libc::SIGBUS => "SIGBUS".into(),
        libc::SIGABRT => "SIGABRT".into(),
        libc::SIGILL => "SIGILL".into(),
        libc::SIGFPE => "SIGFPE".into(),
        libc::SIGKILL => "SIGKILL".into(),
        x => format!("SIG{}", x),
    }
}

fn eval_in_child(scratch: &str, tag: &str, rec: &Value, hang_secs: u64) -> ChildOutcome {
    let path = format!("{}/eval-{}.json", scratch, tag);
    std::fs::write(&path, serde_json::to_vec(rec).unwrap()).unwrap();
    let outp = format!("{}.out", path);
    let errp = format!("{}.err", path);
    let _ = std::fs::remove_file(&outp);
    let exe = std::env::current_exe().unwrap();
    let errf = std::fs::File::create(&errp).map(Stdio::from).unwrap_or_else(|_| Stdio::null());
    let mut child = Command::new(exe).arg("eval").arg(&path).arg(&outp).stdout(Stdio::null()).stderr(errf).spawn().unwrap_or_else(|e| harness_error(&format!("spawn: {}", e)));
    let t0 = Instant::now();
    let status = loop {
        match child.try_wait() {
            Ok(Some(s)) => break Some(s),
            Ok(None) => {
                if t0.elapsed().as_secs() > hang_secs {
                    let _ = child.kill();
                    let _ = child.wait();
                    break None;
                }
                std::thread::sleep(Duration::from_millis(1));
            }
            Err(_) => break None,
        }
    };
    let tapes_in = rec.get("tapes").cloned().unwrap_or(Value::Null);
    let stderr_text = std::fs::read_to_string(&errp).unwrap_or_default();
    let _ = std::fs::remove_file(&errp);
    let _ = std::fs::remove_file(&path);
    match status {
        None => ChildOutcome { violation: Some(Violation::new("hang", "process", format!("no result within {} s", hang_secs))), hash: String::new(), tapes: tapes_in, events: json!([]) },
        Some(s) => {
            if let Some(sig) = s.signal() {
                if stderr_text.contains("memory allocation of") {
                    let line = stderr_text.lines().find(|l| l.contains("memory allocation of")).unwrap_or("").to_string();
                    return ChildOutcome { violation: Some(Violation::new("alloc_limit", "process", line)), hash: String::new(), tapes: tapes_in, events: json!([]) };
                }
                let tail: String = stderr_text.lines().rev().take(3).collect::<Vec<_>>().join(" | ");
                return ChildOutcome { violation: Some(Violation::new(&format!("crash:{}", sig_name(sig)), "process", format!("worker process died by signal; stderr: {}", tail))), hash: String::new(), tapes: tapes_in, events: json!([]) };
            }
            if let Ok(t) = std::fs::read_to_string(&outp) {
                let _ = std::fs::remove_file(&outp);
                if let Ok(v) = serde_json::from_str::<Value>(&t) {
                    return ChildOutcome {
                        violation: v.get("violation").and_then(Violation::from_json),
                        hash: v["hash"].as_str().unwrap_or("").to_string(),
                        tapes: v["tapes"].clone(),
                        events: v["events"].clone(),
                    };
                }
            }
            ChildOutcome { violation: Some(Violation::new(&format!("crash:exit{}", s.code().unwrap_or(-1)), "process", "worker process exited without a result")), hash: String::new(), tapes: tapes_in, events: json!([]) }
        }
    }
}

/// `shrink <in> <out>`: in-process tape shrinking for violations that do not kill the process.
fn shrink_cmd(spec: &CheckSpec, args: &[String]) -> ! {
    let rec = read_json(&args[0]);
    let out = &args[1];
    (spec.init)();
    install_panic_hook();
    set_rlimit_as(spec.rlimit_as_mb);
    let sc = find_scenario(spec, rec["scenario"].as_str().unwrap_or(""));
    let seed = rec["seed"].as_u64().unwrap_or(0);
    let class = rec["class"].as_str().unwrap_or("").to_string();
    let site = rec["site"].as_str().unwrap_or("").to_string();
    let secs: u64 = arg_val(args, "--secs").and_then(|s| s.parse().ok()).unwrap_or(40);
    let mut budget = shrink::Budget::new(3000, Duration::from_secs(secs));
    let mut eval = |t: &Value| -> Option<Value> {
        let cx = exec(sc, Source::from_tapes(seed, t));
        match &cx.violation {
            Some(v) if v.class == class && v.site == site => Some(cx.src.tapes()),
            _ => None,
        }
    };
    let best = shrink::shrink(&rec["tapes"], &mut budget, &mut eval);
    let mut r = rec.clone();
    r["tapes"] = best;
    r["shrink_attempts"] = json!(budget.attempts);
    std::fs::write(out, serde_json::to_vec(&r).unwrap()).unwrap();
    std::process::exit(0);
}

/// `replay <file>`: re-run a replay file; exit 1 (with a VIOLATION line) iff the recorded violation shows again.
fn replay_cmd(spec: &CheckSpec, args: &[String]) -> ! {
    let rec = read_json(&args[0]);
    let scratch = make_scratch(spec.id);
    let o = eval_in_child(&scratch, "replay", &rec, spec.hang_secs);
    let _ = std::fs::remove_dir_all(&scratch);
    let want_class = rec["class"].as_str().unwrap_or("");
    let want_site = rec["site"].as_str().unwrap_or("");
    if let Some(ev) = o.events.as_array() {
        for e in ev {
            println!("  | {}", e.as_str().unwrap_or(""));
        }
    }
    match &o.violation {
        Some(v) => {
            let same = v.class == want_class && v.site == want_site;
            println!("REPLAY property={} scenario={} class={} site={} reproduced={} hash={} detail={}", spec.id, rec["scenario"].as_str().unwrap_or(""), v.class, v.site, same, o.hash, v.detail);
            if same && !rec["hash"].as_str().unwrap_or("").is_empty() && rec["hash"].as_str() != Some(o.hash.as_str()) && !o.hash.is_empty() {
                println!("REPLAY note: event-trace hash differs from the recorded one ({} vs {})", o.hash, rec["hash"].as_str().unwrap_or(""));
            }
            println!("VIOLATION property={} replay={}", spec.id, args[0]);
            std::process::exit(1);
        }
        None => {
            println!("REPLAY property={} scenario={} no violation (recorded: {} @ {})", spec.id, rec["scenario"].as_str().unwrap_or(""), want_class, want_site);
            std::process::exit(0);
        }
    }
}

/// `rehash --tier T --seed S --pairs j:i,j:i`: print the trace hash of the named runs.
fn rehash_cmd(spec: &CheckSpec, args: &[String]) -> ! {
    let base: u64 = arg_val(args, "--seed").and_then(|s| s.parse().ok()).unwrap_or(1);
    let pairs = arg_val(args, "--pairs").unwrap_or_default();
    (spec.init)();
    install_panic_hook();
    set_rlimit_as(spec.rlimit_as_mb);
    for p in pairs.split(',').filter(|s| !s.is_empty()) {
        let mut it = p.split(':');
        let j: usize = it.next().unwrap().parse().unwrap();
        let i: u64 = it.next().unwrap().parse().unwrap();
        let sc = &spec.scenarios[j];
        let seed = run_seed(spec.id, base, &sc.name(), i);
        let cx = exec(sc.as_ref(), Source::from_seed(seed));
        println!("HASH {} {} {:016x}", j, i, cx.trace.hash);
    }
    std::process::exit(0);
}

// ---------------------------------------------------------------------------------------
// parent

fn make_scratch(id: &str) -> String {
    // tmpfs when there is one: workers rewrite a tiny progress file before every run
    let base = if std::fs::metadata("/dev/shm").map(|m| m.is_dir()).unwrap_or(false) && std::fs::write(format!("/dev/shm/.zsim-probe-{}", std::process::id()), b"x").is_ok() {
        let _ = std::fs::remove_file(format!("/dev/shm/.zsim-probe-{}", std::process::id()));
        "/dev/shm/zsim-scratch".to_string()
    } else {
        format!("{}/scratch", verif_dir())
    };
    let d = format!("{}/{}-{}", base, id, std::process::id());
    let _ = std::fs::remove_dir_all(&d);
    std::fs::create_dir_all(&d).unwrap_or_else(|e| harness_error(&format!("mkdir {}: {}", d, e)));
    d
}

struct Proc {
    k: u64,
    gen: u64,
    child: std::process::Child,
    last_cur: String,
    last_change: Instant,
    restarts: u32,
}

fn spawn_worker(spec: &CheckSpec, tier: Tier, base: u64, k: u64, of: u64, gen: u64, dir: &str, scale: f64, wall: u64, resume: Option<(usize, u64)>, only: &Option<String>) -> std::process::Child {
    let exe = std::env::current_exe().unwrap();
    let mut c = Command::new(exe);
    c.arg("worker").arg("--tier").arg(tier.name()).arg("--seed").arg(base.to_string()).arg("--k").arg(k.to_string()).arg("--of").arg(of.to_string());
    c.arg("--gen").arg(gen.to_string()).arg("--dir").arg(dir).arg("--scale").arg(scale.to_string()).arg("--wall").arg(wall.to_string());
    if let Some((j, i)) = resume {
        c.arg("--resume").arg(format!("{}:{}", j, i));
    }
    if let Some(o) = only {
        c.arg("--only").arg(o);
    }
    let _ = spec;
    c.stdout(Stdio::null()).stderr(Stdio::null());
    c.spawn().unwrap_or_else(|e| harness_error(&format!("spawn worker: {}", e)))
}

fn parse_cur(s: &str) -> Option<(usize, u64)> {
    let mut p = s.split_whitespace();
    Some((p.next()?.parse().ok()?, p.next()?.parse().ok()?))
}

fn parent(spec: &CheckSpec, args: &[String]) -> ! {
    let t0 = Instant::now();
    let tier = if arg_val(args, "--tier").as_deref() == Some("thorough") { Tier::Thorough } else { Tier::Quick };
    let base: u64 = arg_val(args, "--seed").and_then(|s| s.parse().ok()).unwrap_or(1);
    let ncpu = std::thread::available_parallelism().map(|n| n.get() as u64).unwrap_or(4);
    let workers: u64 = arg_val(args, "--workers").and_then(|s| s.parse().ok()).or_else(|| std::env::var("ZSIM_WORKERS").ok().and_then(|s| s.parse().ok())).unwrap_or(ncpu.min(16)).max(1);
    let scale: f64 = arg_val(args, "--scale").and_then(|s| s.parse().ok()).or_else(|| std::env::var("ZSIM_SCALE").ok().and_then(|s| s.parse().ok())).unwrap_or(1.0);
    let only: Option<String> = arg_val(args, "--only");
    let wall = match tier {
        Tier::Quick => spec.quick_wall_s,
        Tier::Thorough => spec.thorough_wall_s,
    };
    let vdir = verif_dir();
    let known = known::load(&format!("{}/known_findings.json", vdir));
    let scratch = make_scratch(spec.id);
    println!("zsim {} tier={} VERIF_SEED={} workers={} scenarios={}", spec.id, tier.name(), base, workers, spec.scenarios.len());

    // ---- run the workers, supervising deaths and hangs
    let mut procs: Vec<Proc> = (0..workers)
        .map(|k| Proc { k, gen: 0, child: spawn_worker(spec, tier, base, k, workers, 0, &scratch, scale, wall, None, &only), last_cur: String::new(), last_change: Instant::now(), restarts: 0 })
        .collect();
    let mut deaths: Vec<(usize, u64, String)> = vec![]; // (scenario index, run index, class)
    let mut live = procs.len();
    let mut finished = vec![false; procs.len()];
    while live > 0 {
        std::thread::sleep(Duration::from_millis(20));
        for (pi, p) in procs.iter_mut().enumerate() {
            if finished[pi] {
                continue;
            }
            let cur = std::fs::read_to_string(format!("{}/w{}.cur", scratch, p.k)).unwrap_or_default();
            if cur != p.last_cur {
                p.last_cur = cur.clone();
                p.last_change = Instant::now();
            }
            let mut death: Option<String> = None;
            match p.child.try_wait() {
                Ok(Some(st)) => {
                    if st.success() {
                        finished[pi] = true;
                        live -= 1;
                        continue;
                    }
                    death = Some(match st.signal() {
                        Some(sig) => format!("crash:{}", sig_name(sig)),
                        None => format!("crash:exit{}", st.code().unwrap_or(-1)),
                    });
                }
                Ok(None) => {
                    if p.last_change.elapsed().as_secs() > spec.hang_secs {
                        let _ = p.child.kill();
                        let _ = p.child.wait();
                        death = Some("hang".to_string());
                    }
                }
                Err(e) => harness_error(&format!("wait: {}", e)),
            }
            if let Some(class) = death {
                let cur = std::fs::read_to_string(format!("{}/w{}.cur", scratch, p.k)).unwrap_or_default();
                match parse_cur(&cur) {
                    Some((j, i)) => {
                        deaths.push((j, i, class));
                        p.restarts += 1;
                        if p.restarts > 40 {
                            finished[pi] = true;
                            live -= 1;
                            let _ = std::fs::write(format!("{}/w{}.truncated", scratch, p.k), "1");
                            continue;
                        }
                        p.gen += 1;
                        p.child = spawn_worker(spec, tier, base, p.k, workers, p.gen, &scratch, scale, wall.saturating_sub(t0.elapsed().as_secs()).max(5), Some((j, i)), &only);
                        p.last_change = Instant::now();
                    }
                    None => harness_error(&format!("worker {} died ({}) before its first run", p.k, class)),
                }
            }
        }
    }

    // ---- merge worker summaries
    let mut merged: BTreeMap<String, ScStats> = BTreeMap::new();
    let mut first_hashes: BTreeMap<(String, u64), String> = BTreeMap::new();
    let mut distinct: HashSet<u64> = HashSet::new();
    let mut truncated = false;
    for e in std::fs::read_dir(&scratch).unwrap().flatten() {
        let name = e.file_name().to_string_lossy().to_string();
        let path = e.path().to_string_lossy().to_string();
        if name.ends_with(".truncated") {
            truncated = true;
        } else if name.ends_with(".hashes") {
            if let Ok(b) = std::fs::read(&path) {
                for c in b.chunks_exact(8) {
                    distinct.insert(u64::from_le_bytes(c.try_into().unwrap()));
                }
            }
        } else if name.starts_with('w') && name.ends_with(".json") {
            let v = read_json(&path);
            if let Some(o) = v["scenarios"].as_object() {
                for (sname, s) in o {
                    let m = merged.entry(sname.clone()).or_default();
                    m.evaluations += s["evaluations"].as_u64().unwrap_or(0);
                    m.nontrivial += s["nontrivial"].as_u64().unwrap_or(0);
                    m.abandoned += s["abandoned"].as_u64().unwrap_or(0);
                    m.steps += s["steps"].as_u64().unwrap_or(0);
                    m.sim_ms += s["sim_ms"].as_u64().unwrap_or(0);
                    for (field, target) in [("faults", &mut m.faults), ("probes", &mut m.probes)] {
                        if let Some(fo) = s[field].as_object() {
                            for (k, c) in fo {
                                *target.entry(k.clone()).or_insert(0) += c.as_u64().unwrap_or(0);
                            }
                        }
                    }
                    if let Some(a) = s["samples"].as_array() {
                        for x in a {
                            if m.samples.len() < 2 {
                                m.samples.push(x.clone());
                            }
                        }
                    }
                    if let Some(a) = s["cells"].as_array() {
                        for x in a {
                            if let Some(c) = x.as_str() {
                                m.cells.insert(c.to_string());
                            }
                        }
                    }
                    if let Some(fh) = s["first_hashes"].as_object() {
                        for (i, h) in fh {
                            first_hashes.insert((sname.clone(), i.parse().unwrap_or(0)), h.as_str().unwrap_or("").to_string());
                        }
                    }
                    if let Some(a) = s["violations"].as_array() {
                        for x in a {
                            let key = (x["class"].as_str().unwrap_or("").to_string(), x["site"].as_str().unwrap_or("").to_string(), x["kb"].as_str().unwrap_or("-").to_string());
                            match m.violations.get_mut(&key) {
                                Some(e) => {
                                    let c = e["count"].as_u64().unwrap_or(0) + x["count"].as_u64().unwrap_or(0);
                                    if x["index"].as_u64().unwrap_or(u64::MAX) < e["index"].as_u64().unwrap_or(u64::MAX) {
                                        *e = x.clone();
                                    }
                                    e["count"] = json!(c);
                                }
                                None => {
                                    m.violations.insert(key, x.clone());
                                }
                            }
                        }
                    }
                }
            }
        }
    }

    // ---- determinism pairs: re-run the first runs of every scenario in one fresh process
    let per_sc: u64 = if tier == Tier::Quick { 4 } else { 16 };
    let mut pairs = vec![];
    for (j, sc) in spec.scenarios.iter().enumerate() {
        let b = ((sc.budget(tier) as f64) * scale).ceil() as u64;
        for i in (0..per_sc.min(b)).rev() {
            if first_hashes.contains_key(&(sc.name(), i)) {
                pairs.push(format!("{}:{}", j, i));
            }
        }
    }
    let mut det_checked = 0u64;
    let mut det_mismatch: Vec<String> = vec![];
    if !pairs.is_empty() {
        let exe = std::env::current_exe().unwrap();
        let out = Command::new(exe).arg("rehash").arg("--seed").arg(base.to_string()).arg("--pairs").arg(pairs.join(",")).stderr(Stdio::null()).output();
        if let Ok(out) = out {
            for line in String::from_utf8_lossy(&out.stdout).lines() {
                let p: Vec<&str> = line.split_whitespace().collect();
                if p.len() == 4 && p[0] == "HASH" {
                    let j: usize = p[1].parse().unwrap_or(0);
                    let i: u64 = p[2].parse().unwrap_or(0);
                    let name = spec.scenarios[j].name();
                    det_checked += 1;
                    if first_hashes.get(&(name.clone(), i)).map(|s| s.as_str()) != Some(p[3]) {
                        det_mismatch.push(format!("{}#{}", name, i));
                    }
                }
            }
        }
    }

    // ---- candidates: in-process violations + process deaths
    let mut candidates: Vec<Value> = vec![];
    for (_sname, m) in &merged {
        for v in m.violations.values() {
            candidates.push(v.clone());
        }
    }
    let mut seen_death: BTreeSet<(usize, String)> = BTreeSet::new();
    for (j, i, class) in &deaths {
        let name = spec.scenarios[*j].name();
        if !seen_death.insert((*j, class.clone())) {
            // count further deaths of the same class in the same scenario
            for c in candidates.iter_mut() {
                if c["scenario"] == json!(name) && c["class"] == json!(class) {
                    c["count"] = json!(c["count"].as_u64().unwrap_or(1) + 1);
                }
            }
            continue;
        }
        candidates.push(json!({"scenario": name, "scenario_index": j, "index": i, "seed": run_seed(spec.id, base, &name, *i), "class": class, "site": "process", "detail": "worker process died during this run", "count": 1}));
    }

    // ---- confirm, shrink, classify
    let mut violations_out: Vec<Value> = vec![];
    let mut known_seen: Vec<Value> = vec![];
    let mut unreproduced: Vec<Value> = vec![];
    let mut exit_code = 0;
    let replays_dir = format!("{}/replays", vdir);
    // shrinking budget for the whole check: new violations are all reported and replayable, but only the
    // first few are minimised (each minimisation costs seconds)
    let mut shrinks_left: u32 = if tier == Tier::Quick { 6 } else { 24 };
    let t_triage = Instant::now();
    let triage_cap = Duration::from_secs(if tier == Tier::Quick { 90 } else { 900 });
    for (ci, cand) in candidates.iter().enumerate() {
        let scen = cand["scenario"].as_str().unwrap_or("").to_string();
        let class = cand["class"].as_str().unwrap_or("").to_string();
        let site = cand["site"].as_str().unwrap_or("").to_string();
        let mut rec = json!({"property": spec.id, "scenario": scen, "seed": cand["seed"], "index": cand["index"], "class": class, "site": site, "detail": cand["detail"], "tier": tier.name(), "verif_seed": base});
        if cand.get("tapes").map(|t| t.is_object()).unwrap_or(false) {
            rec["tapes"] = cand["tapes"].clone();
        }
        // confirm in a fresh process
        let o = eval_in_child(&scratch, &format!("confirm{}", ci), &rec, spec.hang_secs);
        let reproduced = match &o.violation {
            Some(v) => {
                if class.starts_with("crash") || class == "hang" {
                    // a death may resolve into a classified violation when run alone
                    rec["class"] = json!(v.class);
                    rec["site"] = json!(v.site);
                    rec["detail"] = json!(v.detail);
                    true
                } else {
                    v.class == class && v.site == site
                }
            }
            None => false,
        };
        let class = rec["class"].as_str().unwrap_or("").to_string();
        let site = rec["site"].as_str().unwrap_or("").to_string();
        if !reproduced {
            unreproduced.push(json!({"scenario": scen, "class": class, "site": site, "seed": cand["seed"], "index": cand["index"], "got": o.violation.as_ref().map(|v| v.to_json())}));
            continue;
        }
        if o.tapes.is_object() {
            rec["tapes"] = o.tapes.clone();
        }
        rec["hash"] = json!(o.hash);
        let detail_now = rec["detail"].as_str().unwrap_or("").to_string();
        let kn = known::matches(&known, spec.id, &scen, &class, &site, &detail_now);
        if let Some(k) = kn {
            // a replay file for the known finding too (not minimised): it can be replayed and looked at
            let safe = |x: &str| -> String { x.chars().map(|c| if c.is_ascii_alphanumeric() { c } else { '_' }).collect() };
            let kdir = format!("{}/known", replays_dir);
            let _ = std::fs::create_dir_all(&kdir);
            let kpath = format!("{}/{}-{}-{}-{}.json", kdir, spec.id, safe(&scen), safe(&class), safe(&site));
            let mut krec = rec.clone();
            krec["events"] = o.events.clone();
            krec["known_finding"] = json!(k.what);
            krec["not_minimised"] = json!("known finding: recorded as first seen");
            krec["replay_cmd"] = json!("./check --replay <this file>");
            let _ = std::fs::write(&kpath, serde_json::to_vec_pretty(&krec).unwrap_or_default());
            println!("KNOWN-FINDING: property={} scenario={} class={} site={} count={} first_seed={} replay={} ({})", spec.id, scen, class, site, cand["count"], cand["seed"], kpath, k.what);
            known_seen.push(json!({"scenario": scen, "class": class, "site": site, "count": cand["count"], "first_index": cand["index"], "replay": kpath, "what": k.what}));
            continue;
        }
        // shrink
        let before = shrink::tape_len(&rec["tapes"]);
        let dies = class.starts_with("crash") || class == "hang" || class == "alloc_limit";
        let do_shrink = shrinks_left > 0 && t_triage.elapsed() < triage_cap;
        if do_shrink {
            shrinks_left -= 1;
        } else {
            rec["not_minimised"] = json!("shrinking budget of this check was used up by earlier violations");
        }
        if !do_shrink {
        } else if !dies {
            let inp = format!("{}/shrink-in-{}.json", scratch, ci);
            let outp = format!("{}/shrink-out-{}.json", scratch, ci);
            std::fs::write(&inp, serde_json::to_vec(&rec).unwrap()).unwrap();
            let exe = std::env::current_exe().unwrap();
            let secs = if tier == Tier::Quick { 12 } else { 60 };
            // the shrinker runs candidates in-process; a candidate that hangs or kills it must not
            // take the check down: watchdog + fall back to the unminimised tapes
            let ok = match Command::new(exe).arg("shrink").arg(&inp).arg(&outp).arg("--secs").arg(secs.to_string()).stdout(Stdio::null()).stderr(Stdio::null()).spawn() {
                Ok(mut ch) => {
                    let t_s = Instant::now();
                    loop {
                        match ch.try_wait() {
                            Ok(Some(s)) => break s.success(),
                            Ok(None) => {
                                if t_s.elapsed().as_secs() > secs + 20 {
                                    let _ = ch.kill();
                                    let _ = ch.wait();
                                    rec["not_minimised"] = json!("the shrinker did not finish in time");
                                    break false;
                                }
                                std::thread::sleep(Duration::from_millis(10));
                            }
                            Err(_) => break false,
                        }
                    }
                }
                Err(_) => false,
            };
            if ok {
                let r = read_json(&outp);
                // the minimised tapes must fail the same way in a fresh process
                let o2 = eval_in_child(&scratch, &format!("min{}", ci), &r, spec.hang_secs);
                if o2.violation.as_ref().map(|v| v.class == class && v.site == site).unwrap_or(false) {
                    rec["tapes"] = o2.tapes.clone();
                    rec["hash"] = json!(o2.hash);
                    rec["detail"] = json!(o2.violation.as_ref().unwrap().detail);
                    rec["events"] = o2.events.clone();
                    rec["shrink_attempts"] = r["shrink_attempts"].clone();
                }
            }
        } else {
            // process-per-candidate shrinking for runs that kill the process
            let mut budget = shrink::Budget::new(if tier == Tier::Quick { 120 } else { 400 }, Duration::from_secs(if tier == Tier::Quick { 30 } else { 120 }));
            let mut n = 0u64;
            let recc = rec.clone();
            let mut eval = |t: &Value| -> Option<Value> {
                n += 1;
                let mut r = recc.clone();
                r["tapes"] = t.clone();
                let o = eval_in_child(&scratch, &format!("pc{}-{}", ci, n), &r, spec.hang_secs.min(10));
                match &o.violation {
                    Some(v) if v.class == class && v.site == site => Some(if o.tapes.is_object() { o.tapes.clone() } else { t.clone() }),
                    _ => None,
                }
            };
            if rec["tapes"].is_object() {
                let best = shrink::shrink(&rec["tapes"].clone(), &mut budget, &mut eval);
                rec["tapes"] = best;
                rec["shrink_attempts"] = json!(budget.attempts);
            }
        }
        if rec.get("events").is_none() {
            rec["events"] = o.events.clone();
        }
        rec["tape_len_before_shrink"] = json!(before);
        rec["tape_len"] = json!(shrink::tape_len(&rec["tapes"]));
        rec["count_in_run"] = cand["count"].clone();
        rec["replay_cmd"] = json!(format!("./check --replay <this file>"));
        let _ = std::fs::create_dir_all(&replays_dir);
        let safe: String = scen.chars().map(|c| if c.is_ascii_alphanumeric() { c } else { '_' }).collect();
        let path = format!("{}/{}-{}-{}-{}.json", replays_dir, spec.id, safe, class.replace(|c: char| !c.is_ascii_alphanumeric(), "_"), cand["seed"].as_u64().unwrap_or(0));
        std::fs::write(&path, serde_json::to_vec_pretty(&rec).unwrap()).unwrap();
        println!("VIOLATION property={} replay={}", spec.id, path);
        println!("  scenario={} class={} site={} count={} detail={}", scen, class, site, cand["count"], rec["detail"].as_str().unwrap_or(""));
        violations_out.push(json!({"scenario": scen, "class": class, "site": site, "count": cand["count"], "replay": path, "detail": rec["detail"]}));
        exit_code = 1;
    }
    if !unreproduced.is_empty() {
        for u in &unreproduced {
            eprintln!("zsim: UNREPRODUCED {}", u);
        }
    }

    // ---- evidence
    let mut evaluations = 0u64;
    let mut nontrivial = 0u64;
    let mut steps = 0u64;
    let mut sim_ms = 0u64;
    let mut abandoned = 0u64;
    let mut faults = Counts::new();
    let mut probes = Counts::new();
    let mut samples: Vec<Value> = vec![];
    let mut per_scenario = Map::new();
    let mut cells_total = 0usize;
    for (name, m) in &merged {
        evaluations += m.evaluations;
        nontrivial += m.nontrivial;
        steps += m.steps;
        sim_ms += m.sim_ms;
        abandoned += m.abandoned;
        add_counts(&mut faults, &m.faults);
        add_counts(&mut probes, &m.probes);
        if samples.len() < 6 {
            samples.extend(m.samples.iter().take(1).cloned());
        }
        cells_total += m.cells.len();
        per_scenario.insert(name.clone(), json!({"evaluations": m.evaluations, "nontrivial": m.nontrivial, "abandoned": m.abandoned, "steps": m.steps, "sim_ms": m.sim_ms, "faults": m.faults, "probes": m.probes, "coverage_cells": m.cells.len()}));
    }
    if samples.is_empty() {
        samples.push(json!({"note": "no non-trivial violation-free run was sampled"}));
    }
    let wall = t0.elapsed().as_secs_f64();
    let zero_probes: Vec<String> = probes.iter().filter(|(_, v)| **v == 0).map(|(k, _)| k.clone()).collect();
    let ev = json!({
        "property_id": spec.id,
        "tier": tier.name(),
        "seed": base,
        "level": spec.level,
        "coverage": {
            "evaluations": evaluations,
            "distinct_nontrivial": distinct.len(),
            "nontrivial_runs": nontrivial,
            "rule": spec.rule,
            "samples": samples,
            "scheduler_steps_or_ops": steps,
            "simulated_ms": sim_ms,
            "abandoned_runs": abandoned,
            "faults_fired": faults,
            "probes": probes,
            "probes_at_zero": zero_probes,
            "coverage_cells": cells_total,
            "per_scenario": per_scenario,
            "runs_per_hour": if wall > 0.0 { (evaluations as f64 / wall * 3600.0) as u64 } else { 0 },
            "workers": workers,
            "worker_deaths": deaths.len(),
            "truncated_by_wall_cap": truncated,
            "components": spec.components.iter().map(|(a, b)| json!({"component": a, "ran": b})).collect::<Vec<_>>(),
            "determinism_pairs_checked": det_checked,
            "determinism_mismatches": det_mismatch,
            "known_findings_seen": known_seen,
            "known_not_reproduced": known.iter().filter(|k| k.status == "known" && k.property == spec.id).filter(|k| !known_seen.iter().any(|s| s["what"] == json!(k.what))).map(|k| json!({"scenario": k.scenario, "class": k.class, "site": k.site})).collect::<Vec<_>>(),
            "violations": violations_out,
            "unreproduced": unreproduced,
            "exhaustive": false,
        },
        "assumptions": spec.assumptions,
        "wall_s": wall,
        "violations": violations_out.len(),
    });
    let evdir = format!("{}/evidence", vdir);
    let _ = std::fs::create_dir_all(&evdir);
    std::fs::write(format!("{}/{}.json", evdir, spec.id), serde_json::to_vec_pretty(&ev).unwrap()).unwrap_or_else(|e| harness_error(&format!("write evidence: {}", e)));
    if tier == Tier::Thorough {
        // keep the last thorough result next to the (re-writable) evidence file as a record
        let tdir = format!("{}/thorough", evdir);
        let _ = std::fs::create_dir_all(&tdir);
        let _ = std::fs::write(format!("{}/{}.json", tdir, spec.id), serde_json::to_vec_pretty(&ev).unwrap());
    }
    let _ = std::fs::remove_dir_all(&scratch);
    println!(
        "zsim {} done: runs={} distinct_nontrivial={} known_findings={} violations={} determinism={}/{} wall={:.1}s",
        spec.id, evaluations, distinct.len(), known_seen.len(), violations_out.len(), det_checked as usize - det_mismatch.len(), det_checked, wall
    );
    if !unreproduced.is_empty() && exit_code == 0 {
        eprintln!("zsim: a violation did not reproduce in a fresh process: the harness is not deterministic for it");
        std::process::exit(2);
    }
    if !det_mismatch.is_empty() {
        eprintln!("zsim: determinism mismatches: {:?}", det_mismatch);
        if exit_code == 0 {
            std::process::exit(2);
        }
    }
    std::process::exit(exit_code);
}

/// `selftest [--n N]`: N seeds per scenario, run in two different processes and orders; all hashes must agree.
fn selftest_cmd(spec: &CheckSpec, args: &[String]) -> ! {
    let n: u64 = arg_val(args, "--n").and_then(|s| s.parse().ok()).unwrap_or(64);
    let base: u64 = arg_val(args, "--seed").and_then(|s| s.parse().ok()).unwrap_or(1);
    let exe = std::env::current_exe().unwrap();
    let mut fwd = vec![];
    for j in 0..spec.scenarios.len() {
        for i in 0..n {
            fwd.push(format!("{}:{}", j, i));
        }
    }
    let mut rev = fwd.clone();
    rev.reverse();
    let run = |pairs: &[String]| -> BTreeMap<(String, String), String> {
        let mut m = BTreeMap::new();
        // split into chunks handled by separate processes in parallel
        let chunks: Vec<Vec<String>> = pairs.chunks((pairs.len() / 16).max(1)).map(|c| c.to_vec()).collect();
        let kids: Vec<_> = chunks.iter().map(|c| Command::new(&exe).arg("rehash").arg("--seed").arg(base.to_string()).arg("--pairs").arg(c.join(",")).stderr(Stdio::null()).stdout(Stdio::piped()).spawn().unwrap()).collect();
        for k in kids {
            let out = k.wait_with_output().unwrap();
            for line in String::from_utf8_lossy(&out.stdout).lines() {
                let p: Vec<&str> = line.split_whitespace().collect();
                if p.len() == 4 && p[0] == "HASH" {
                    m.insert((p[1].to_string(), p[2].to_string()), p[3].to_string());
                }
            }
        }
        m
    };
    let a = run(&fwd);
    let b = run(&rev);
    let mut bad = 0;
    for (k, v) in &a {
        if b.get(k) != Some(v) {
            bad += 1;
            if bad <= 10 {
                println!("MISMATCH scenario#{} run {}: {} vs {:?}", k.0, k.1, v, b.get(k));
            }
        }
    }
    println!("selftest {}: {} runs compared, {} mismatches, {} missing", spec.id, a.len(), bad, fwd.len().saturating_sub(a.len()));
    std::process::exit(if bad == 0 && a.len() == fwd.len() { 0 } else { 2 });
}

pub fn main(spec: CheckSpec) -> ! {
    let args: Vec<String> = std::env::args().skip(1).collect();
    if args.is_empty() {
        harness_error("usage: <bin> run|worker|eval|replay|shrink|rehash|selftest ...");
    }
    let rest = &args[1..];
    match args[0].as_str() {
        "run" => parent(&spec, rest),
        "worker" => worker(&spec, rest),
        "eval" => eval_cmd(&spec, rest),
        "replay" => replay_cmd(&spec, rest),
        "shrink" => shrink_cmd(&spec, rest),
        "rehash" => rehash_cmd(&spec, rest),
        "selftest" => selftest_cmd(&spec, rest),
        "list" => {
            for s in &spec.scenarios {
                println!("{} quick={} thorough={}", s.name(), s.budget(Tier::Quick), s.budget(Tier::Thorough));
            }
            std::process::exit(0)
        }
        x => harness_error(&format!("unknown sub-command {}", x)),
    }
}
