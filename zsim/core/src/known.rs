//! known_findings.json: genuine defects recorded rather than repaired.  Read-only at run time.

use serde_json::Value;

#[derive(Clone, Debug)]
pub struct Known {
    pub property: String,
    pub scenario: String,
    pub class: String,
    pub site: String,
    pub what: String,
    /// optional glob over the violation's detail text (panic message etc.); empty = any
    pub detail: String,
    /// "known" suppresses the alarm; "fixed" suppresses nothing (kept as a record only)
    pub status: String,
}

fn glob(pat: &str, s: &str) -> bool {
    // `*` matches any run of characters; everything else is literal
    let parts: Vec<&str> = pat.split('*').collect();
    if parts.len() == 1 {
        return pat == s;
    }
    let mut pos = 0usize;
    for (i, p) in parts.iter().enumerate() {
        if p.is_empty() {
            continue;
        }
        if i == 0 {
            if !s.starts_with(p) {
                return false;
            }
            pos = p.len();
        } else if i == parts.len() - 1 {
            return s.len() >= pos + p.len() && s[pos..].ends_with(p);
        } else {
            match s[pos..].find(p) {
                Some(k) => pos += k + p.len(),
                None => return false,
            }
        }
    }
    true
}

pub fn load(path: &str) -> Vec<Known> {
    let Ok(text) = std::fs::read_to_string(path) else { return vec![] };
    let Ok(v) = serde_json::from_str::<Value>(&text) else {
        eprintln!("zsim: cannot parse {}", path);
        std::process::exit(2);
    };
    let mut out = vec![];
    if let Some(a) = v.get("findings").and_then(|f| f.as_array()) {
        for f in a {
            let g = |k: &str| f.get(k).and_then(|x| x.as_str()).unwrap_or("").to_string();
            out.push(Known { property: g("property"), scenario: g("scenario"), class: g("class"), site: g("site"), what: g("what"), detail: g("detail"), status: g("status") });
        }
    }
    out
}

pub fn matches<'a>(known: &'a [Known], property: &str, scenario: &str, class: &str, site: &str, detail: &str) -> Option<&'a Known> {
    known.iter().find(|k| k.status == "known" && k.property == property && glob(&k.scenario, scenario) && glob(&k.class, class) && glob(&k.site, site) && (k.detail.is_empty() || glob(&k.detail, detail)))
}

/// Index of the matching `known` entry (see `matches`).
pub fn match_index(known: &[Known], property: &str, scenario: &str, class: &str, site: &str, detail: &str) -> Option<usize> {
    known.iter().position(|k| k.status == "known" && k.property == property && glob(&k.scenario, scenario) && glob(&k.class, class) && glob(&k.site, site) && (k.detail.is_empty() || glob(&k.detail, detail)))
}

#[cfg(test)]
mod tests {
    use super::glob;
    #[test]
    fn globs() {
        assert!(glob("a*", "abc"));
        assert!(glob("*", "x"));
        assert!(glob("a*c", "abc"));
        assert!(!glob("a*d", "abc"));
        assert!(glob("abc", "abc"));
        assert!(!glob("abc", "abcd"));
        assert!(glob("src/*.rs:*", "src/x.rs:12"));
    }
}
