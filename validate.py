#!/usr/bin/env python3-vt
"""Validate MANIFEST.json and every evidence file against the given schemas."""
import json, sys, glob, jsonschema
ok = True
m = json.load(open('/verif/MANIFEST.json'))
try:
    jsonschema.validate(m, json.load(open('/root/.vp/MANIFEST.schema.json')))
    print("MANIFEST ok: %d checks, %d not_applicable" % (len(m['checks']), len(m.get('not_applicable', []))))
except Exception as e:
    ok = False; print("MANIFEST INVALID:", e)
es = json.load(open('/root/.vp/EVIDENCE.schema.json'))
for f in sorted(glob.glob("/verif/evidence/*.json")):
    try:
        jsonschema.validate(json.load(open(f)), es); print("evidence ok:", f)
    except Exception as e:
        ok = False; print("evidence INVALID:", f, str(e)[:300])
ids = {c['property_id'] for c in m['checks']} | {n['property_id'] for n in m.get('not_applicable', [])}
allp = {json.loads(l)['id'] for l in open('/verif/properties.jsonl')}
if ids != allp:
    ok = False; print("properties not covered by checks/not_applicable:", sorted(allp - ids), "extra:", sorted(ids - allp))
sys.exit(0 if ok else 1)
