#!/bin/bash
# Sensitivity proof: every patch in mutants/ (a deliberate property-breaking edit of zipora) must make
# the check of its property exit 1; the unpatched tree must exit 0.  Patches are applied to /repo's
# working tree one at a time and reverted straight afterwards (never committed).
#   ./sensitivity.sh [ID ...]      e.g. ./sensitivity.sh C16 C08
cd "$(dirname "$0")"
REPO=${ZIPORA_REPO:-/repo}
if [ -n "$(git -C $REPO status --porcelain -- src)" ]; then echo "sensitivity: $REPO/src has uncommitted changes; refusing"; exit 2; fi
ids="$@"; [ -z "$ids" ] && ids=$(ls mutants/*.diff | sed -E 's#mutants/(C[0-9]+)-.*#\1#' | sort -u)
fail=0
mkdir -p scratch
for id in $ids; do
  for m in mutants/$id-*.diff; do
    [ -f "$m" ] || continue
    if ! git -C $REPO apply --check "$PWD/$m" 2>/dev/null; then echo "SENS $id $(basename $m): DOES NOT APPLY"; fail=1; continue; fi
    git -C $REPO apply "$PWD/$m"
    out=$(ZSIM_SCALE=${ZSIM_SCALE:-1} ./check $id quick 2>&1); rc=$?
    git -C $REPO checkout -- src
    classes=$(echo "$out" | grep -E "^  scenario=" | sed -E 's/.*class=([^ ]+) site=([^ ]+).*/\1@\2/' | sort -u | tr '\n' ' ')
    if [ $rc -eq 1 ]; then echo "SENS $id $(basename $m): DETECTED ($classes)"; else echo "SENS $id $(basename $m): MISSED (exit $rc)"; echo "$out" | tail -5; fail=1; fi
  done
done
rm -rf replays/* 2>/dev/null
exit $fail
